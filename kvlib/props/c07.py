"""C07 — handle commands reach the audio thread exactly once."""
from collections import defaultdict
from ..paths import explore, describe, bool_label, pretty_place
from ..rules import calls_to, calls_where, order_ok, blocks_of
from ..facts import callee_path, trace, is_place, op_local

TEXT = ("For every struct field of type CommandReader<_> in the crate: exactly one read site, outside loops of its own function, in a function reachable from Renderer::on_start_processing (decode-scheduler readers: from DecodeScheduler::run) and not from Renderer::process, with the value consumed; every CommandWriter<_> field has a write site off the audio thread, and every function that writes a command writes it on every path that does not return an error (no state-dependent skipping); reader and writer of one command come from one command_writer_and_reader() call; CommandReader::read yields Some only when the triple buffer reports an update; newly inserted resources are drained in the same callback; type-level compile_fail witnesses (no Clone, &mut receivers, Send+Copy payload) with compiling twins. The interleaving semantics of triple_buffer are trusted. Writers kept in a collection are written through by their owner. A command taken out of its reader reaches a call or a store on every path (also in Parameter::read_command); wrapper methods reach their command-writing callee on every non-error path. The function holding a read is called on every pass of its caller; a handler is not invoked twice with one value; CommandWriter / CommandReader have no Drop impl; the C03 life-cycle rules and the clock rules are evaluated as 'commands take effect as documented'. Nothing runs on a cached copy of a parameter's value that is refreshed only on some passes. Every parameter a handle can set has a command reader of its own handed to it. The playhead's commands are polled loop region first, then the relative seek, then the absolute one. What a handle writes is its own arguments, converted (into, to_, tuple, ValueChangeCommand) and otherwise as they are - nothing is adjusted on the game thread. Every route a builder creates has its command writer in the handle (the builder methods store what they were given, keyed by send track). Where a writer / reader pair is made in a loop, every turn stores both halves.")
TECHNIQUE = 'MIR field-coverage / call-graph reachability / ordering rules + compile_fail witnesses'

READER_FLOOR = 62
WRITER_FLOOR = 61   # + one writer per send route kept in a HashMap (TrackHandle.sends)


def last_field(pl):
    for pr in reversed(pl.get('p', [])):
        if pr[0] == 'field':
            return pr[2], (pr[3] if len(pr) > 3 else None)
        if pr[0] in ('deref',):
            continue
        return None
    return None


def origin_pl(body, op):
    """The projected place an operand refers to (through refs/reborrows of temporaries)."""
    from ..facts import operand_place
    return operand_place(body, op)


def fields_of_type(F, prefix):
    out = []
    for path, a in sorted(F.adts.items()):
        for v in a['variants']:
            for f in v['fields']:
                if f['ty'].startswith(prefix):
                    out.append((path, f['name'], f['ty']))
    return out


def reach_bodies(F, root_path, also=()):
    """Body paths reachable in the monomorphic graph from the root instance with this def path."""
    roots = [i['i'] for i in F.instances if i['path'] == root_path and F.instances.index(i) in
             set(r['inst'] for r in F.roots if r.get('inst') is not None)]
    seen, _ = F.reach_instances(roots)
    return set(F.instances[i]['path'] for i in seen), len(roots)


def poly_reach(F, start_path):
    """Def paths reachable from a generic function through resolved callee paths (polymorphic call graph)."""
    seen = set()
    todo = [start_path]
    while todo:
        p = todo.pop()
        if p in seen:
            continue
        seen.add(p)
        for b in F.by_path.get(p, []):
            for bb, t in b.calls():
                cp = callee_path(t)
                if cp and cp not in seen:
                    todo.append(cp)
            for c in F.closures_of(p):
                if c.path not in seen:
                    todo.append(c.path)
    return seen


def run(ctx, R, tier):
    F = ctx.facts('default')
    F_BODIES[0] = F
    readers = fields_of_type(F, 'command::CommandReader<')
    writers = fields_of_type(F, 'command::CommandWriter<')
    R.floor('B.C07.cover.readers', len(readers), READER_FLOOR)
    R.floor('B.C07.cover.writers', len(writers), WRITER_FLOOR)

    osp, n1 = reach_bodies(F, 'backend::renderer::Renderer::on_start_processing')
    proc, n2 = reach_bodies(F, 'backend::renderer::Renderer::process')
    R.check(n1 == 1 and n2 == 1, 'B.C07.cover', 'anchor:roots', 'audio-thread roots not found')
    dec = poly_reach(F, 'sound::streaming::sound::decode_scheduler::DecodeScheduler::<Error>::run')
    R.check(len(dec) > 3, 'B.C07.cover', 'anchor:decoder', 'DecodeScheduler::run not found')

    # all read / write sites in kira bodies
    read_sites = defaultdict(list)
    write_sites = defaultdict(list)
    for b in F.bodies:
        if b.krate != 'kira':
            continue
        for bb, t in b.calls():
            p = callee_path(t) or ''
            argi = None
            kind = None
            if p == 'command::CommandReader::<T>::read':
                argi, kind = 0, 'r'
            elif p == 'parameter::Parameter::<T>::read_command':
                argi, kind = 1, 'r'
            elif p == 'command::CommandWriter::<T>::write':
                argi, kind = 0, 'w'
            if kind is None or argi >= len(t['args']):
                continue
            pl = origin_pl(b, t['args'][argi])
            lf = last_field(pl) if pl else None
            if lf is None:
                # e.g. Parameter::read_command's own call of reader.read() on its argument: pass-through
                if pl is not None and 1 <= pl['l'] <= b.arg_count and all(x[0] == 'deref' for x in pl['p']):
                    continue
                (read_sites if kind == 'r' else write_sites)[('?', '?')].append((b, bb))
                continue
            (read_sites if kind == 'r' else write_sites)[(lf[1], lf[0])].append((b, bb))
    R.check(('?', '?') not in read_sites, 'B.C07.cover', 'unrecognised-read',
            'unrecognised-shape: a CommandReader is read through a receiver that is not a struct field: %s'
            % [(b.path, b.where(bb)) for b, bb in read_sites.get(('?', '?'), [])][:3],
            detail='every read receiver is a named struct field')

    for (adt, field, ty) in readers:
        key = '%s.%s' % (adt, field)
        sites = read_sites.get((adt, field), [])
        if len(sites) != 1:
            R.bad('B.C07.cover', 'reader:' + key,
                  'CommandReader field %s has %d read sites (%s); exactly one per callback is required'
                  % (key, len(sites), [b.where(bb) for b, bb in sites][:4]),
                  where=F.adts[adt]['file'])
            continue
        b, bb = sites[0]
        problems = []
        # a read inside a loop is fine when the reader belongs to the item the loop iterates over (one reader per item,
        # each read once): its place derives from the value yielded by the loop's `next()`
        per_item = False
        item_next = None
        if b.in_loop(bb):
            from ..facts import operand_place
            for a in b.blocks[bb]['term']['args']:
                rd = describe(b, a, depth=10, at=bb)
                pl = operand_place(b, a)
                base_defs = b.defs().get(pl['l'], []) if pl is not None else []
                if 'std::iter::Iterator>::next(' in rd or any(d[0] == 'call' and (d[2].get('callee') or {}).get('name') in ('next', 'next_back')
                                                                for d in base_defs):
                    per_item = True
        if b.in_loop(bb) and not per_item:
            problems.append('the read sits inside a loop of %s' % b.path)
        in_dec = b.path in dec
        in_osp = b.path in osp
        if not (in_osp or in_dec):
            problems.append('%s is not reachable from Renderer::on_start_processing (nor from the decoder loop)' % b.path)
        if b.path in proc and not in_osp:
            problems.append('%s is reached from Renderer::process only: commands would be applied mid-callback' % b.path)
        # (audio side) polled on every callback: no decision in its function may exclude the read, except the absence
        # of the optional component the command belongs to
        if in_osp or in_dec:
            for g in range(b.n):
                tg = b.blocks[g]['term']
                if tg['k'] != 'switch' or b.blocks[g]['cleanup'] or g == bb or not b.dominates(g, bb):
                    continue
                excluded = [x for x in b.succ(g) if bb not in b.reachable([x])]
                from ..rt import dead_end
                excluded = [x for x in excluded if not dead_end(b, x)]
                if not excluded:
                    continue
                cond = describe(b, tg['op'], depth=3, at=g)
                if cond.startswith('discr(') and 'spatial_data' in cond:
                    continue
                if per_item and cond.startswith('discr(') and 'std::iter::Iterator>::next(' in cond:
                    continue  # the loop's own exit test: no more items
                if in_dec and not in_osp and any(k in cond for k in ('Shared::state', 'is_full', 'is_abandoned', 'Try>::branch')):
                    # the decoder step ends (stopped / abandoned), waits (ring full) or propagates a decoder error
                    continue
                problems.append('the read is skipped when `%s` takes another branch: a pending command stays unread and is applied late' % cond[:80])
                break
        # ... and neither may the callers: the function that holds the read is itself called on every pass of its caller
        # (one level up, within the audio-side code: `if !removed { self.read_commands() }` drops the commands of a track
        # whose handle is gone while its effects' and sounds' handles live on)
        if in_osp and not problems and not b.path.endswith('::on_start_processing'):
            for g in F.bodies:
                if g.krate != 'kira' or g.path not in osp or g.path == b.path:
                    continue
                for cb_, tc in g.calls():
                    if (callee_path(tc) or '') != b.path:
                        continue
                    for sw in range(g.n):
                        tg = g.blocks[sw]['term']
                        if tg['k'] != 'switch' or g.blocks[sw]['cleanup'] or sw == cb_ or not g.dominates(sw, cb_):
                            continue
                        from ..rt import dead_end
                        excluded = [x for x in g.succ(sw) if cb_ not in g.reachable([x]) and not dead_end(g, x)]
                        if not excluded:
                            continue
                        cond = describe(g, tg['op'], depth=3, at=sw)
                        if (cond.startswith('discr(') and ('spatial_data' in cond or 'std::iter::Iterator>::next(' in cond)):
                            continue
                        problems.append('%s calls %s only when `%s` takes one branch: on the other the pending command stays unread'
                                        % (g.path, b.path.split('::')[-1], cond[:80]))
                        break
        t = b.blocks[bb]['term']
        cp = callee_path(t)
        if cp == 'command::CommandReader::<T>::read':
            # the Option must be looked at
            dl = t['dest']['l']
            used = False
            for bi, blk in enumerate(b.blocks):
                for s in blk['stmts']:
                    if s['k'] == 'assign' and ('_%d' % dl) in repr(s['rv']):
                        used = True
            if not used:
                problems.append('the value read is discarded')
            else:
                # ... and a command that arrived has an effect: on the Some side (and only there) something is called or stored
                from ..rules import option_edges, bool_edges
                oe = option_edges(b, bb)
                if oe is None:
                    for x, tt in b.calls():
                        if (tt['callee'].get('name') in ('is_some', 'is_none')) and b.dominates(bb, x) and \
                                ('_%d' % dl) in repr(tt['args']) + repr([s2 for s2 in b.blocks[x]['stmts']]):
                            be = bool_edges(b, x)
                            if be is not None:
                                oe = (be[0], be[1]) if tt['callee'].get('name') == 'is_some' else (be[1], be[0])
                if oe is not None:
                    some_side = b.reachable([oe[0]]) - b.reachable([oe[1]])
                    acts = [x for x in some_side if not b.blocks[x]['cleanup'] and (
                        b.blocks[x]['term']['k'] in ('call', 'tailcall') or b.blocks[x]['term'].get('inlined')
                        or any(st['k'] in ('assign', 'setdiscr') and st['lhs']['p'] for st in b.blocks[x]['stmts']))]
                    if not acts:
                        problems.append('a command that arrived is read and then ignored (nothing is called or stored on the Some side)')
                    else:
                        why = payload_always_used(b, dl, oe[0], some_side)
                        if why:
                            problems.append(why)
        R.check(not problems, 'B.C07.cover', 'reader:' + key, '; '.join(problems),
                detail={'field': key, 'read_in': b.path, 'side': 'decoder' if in_dec and not in_osp else 'audio'},
                where=b.where(bb))

    for (adt, field, ty) in writers:
        key = '%s.%s' % (adt, field)
        sites = write_sites.get((adt, field), [])
        off_rt = [(b, bb) for b, bb in sites if b.path not in osp and b.path not in proc]
        R.check(len(off_rt) >= 1, 'B.C07.cover', 'writer:' + key,
                'CommandWriter field %s is never written by a handle method: its setter is wired to another writer or missing'
                % key, detail={'field': key, 'write_sites': len(sites)}, where=F.adts[adt]['file'])

    # writers kept in a collection (one per send route): the collection is written through by some handle method
    for path, a in sorted(F.adts.items()):
        if a['kind'] != 'Struct':
            continue
        for f in a['variants'][0]['fields']:
            if 'command::CommandWriter<' in f['ty'] and not f['ty'].startswith('command::CommandWriter<'):
                hit = False
                for b in F.bodies:
                    if b.krate != 'kira' or b.path in osp or b.path in proc:
                        continue
                    for bb, t in b.calls():
                        if (callee_path(t) or '') == 'command::CommandWriter::<T>::write' and ('.' + f['name']) in describe(b, t['args'][0], depth=10, at=bb) \
                                and b.path.startswith(path + '::'):
                            hit = True
                R.check(hit, 'B.C07.cover', 'writer-collection:%s.%s' % (path, f['name']),
                        'no handle method writes through the CommandWriters kept in %s.%s: the commands of those routes are never sent' % (path, f['name']),
                        detail={'field': '%s.%s' % (path, f['name'])}, where=a.get('file'))
    pairing(F, R, readers, writers)
    guard(F, R)
    first(F, R)
    once(F, R)
    # every route a builder creates has its command writer in the handle: one route per send track (a builder method stores what it
    # was given, keyed as before - the C02 builder rule)
    _builders(F, R)
    write_unconditional(F, R)
    payload_verbatim(F, R)
    # commands of different kinds do not interfere (the clock's reset does not undo a start): the C05 rule
    from .c05 import clock_rules
    clock_rules(F, R)
    pickup_order(F, R)
    # a setter's value is the one in use from the next callback on: nothing runs on a cached copy of a parameter's value
    from .c06 import param_cache
    param_cache(F, R, rule='B.C07.param-cache')
    from .c09 import transport_cmd_order
    transport_cmd_order(F, R, rule='B.C07.order')
    # every parameter a handle can set has a reader of its own handed to it (a channel shared between several resources is
    # last-write-wins across them: a command to one erases a pending command to another)
    from .c06 import cover as parameter_cover
    parameter_cover(F, R)
    # a life-cycle command takes effect as the documented state machine says, in every state (the C03 rules)
    from . import c03
    c03.run(ctx, R, tier)
    # every effect, sound and child track of a track is given its on_start_processing (where their own command readers are
    # polled) on every path: the C16 fan-out rule, which covers on_start_processing
    from .c16 import cover as fanout_cover
    fanout_cover(F, R)
    from ..witness import run_witnesses
    run_witnesses(R, 'C07')


F_BODIES = [None]
PREDICATES = ('eq', 'ne', 'lt', 'le', 'gt', 'ge', 'partial_cmp', 'cmp', 'is_some', 'is_none', 'is_zero', 'is_empty', 'clone', 'deref',
              'as_ref', 'borrow', 'fmt')


def payload_always_used(b, dl, some_block, some_side):
    """Exactly once means: once a command has been taken out of its reader it is applied, whatever the current state looks
    like.  On the Some side every path to the code after it hands the command's value to a call (other than a comparison
    / predicate) or stores it; a handler that drops the value on some condition has consumed the command for nothing.
    -> None, or what is wrong."""
    from ..facts import op_local
    from ..rules import must_pass
    derived = {dl}
    changed = True
    while changed:
        changed = False
        for x in some_side:
            for st in b.blocks[x]['stmts']:
                if st['k'] != 'assign' or st['lhs']['p']:
                    continue
                rv = st['rv']
                ops = []
                if rv['k'] in ('use', 'cast'):
                    ops = [rv['op']]
                elif rv['k'] in ('ref', 'rawptr'):
                    ops = [{'pl': rv['pl']}]
                elif rv['k'] == 'agg':
                    ops = rv['ops']
                for o in ops:
                    l = (o.get('pl') or {}).get('l') if isinstance(o, dict) else None
                    if l in derived and st['lhs']['l'] not in derived:
                        derived.add(st['lhs']['l'])
                        changed = True
    uses = []
    for x in some_side:
        if b.blocks[x]['cleanup']:
            continue
        t = b.blocks[x]['term']
        if t['k'] in ('call', 'tailcall'):
            nm = (t.get('callee') or {}).get('name') or (callee_path(t) or '').split('::')[-1]
            if nm not in PREDICATES and any(op_local(a) in derived for a in t['args']):
                uses.append(x)
            # a closure capturing the payload handed to a call
        if t.get('inlined'):
            uses.append(x)
        for st in b.blocks[x]['stmts']:
            if st['k'] == 'assign' and st['lhs']['p'] and st['rv']['k'] in ('use', 'cast', 'agg'):
                ops = [st['rv']['op']] if st['rv']['k'] != 'agg' else st['rv']['ops']
                if any(op_local(o) in derived for o in ops):
                    uses.append(x)
    if not uses:
        return None     # payload-free command (e.g. `reset`): decided by the clause above
    exits = set()
    for x in some_side:
        for y in b.succ(x):
            if y not in some_side and not b.blocks[y]['cleanup']:
                exits.add(y)
        if b.blocks[x]['term']['k'] == 'return':
            exits.add(x)
    # ... and only once: the same handler is not invoked a second time with the value on the same path (seek_by twice
    # seeks twice as far)
    by_callee = {}
    for x in uses:
        t = b.blocks[x]['term']
        if t['k'] in ('call', 'tailcall'):
            cpx = callee_path(t) or ''
            if cpx and F_BODIES[0] is not None and F_BODIES[0].body(cpx) is not None and F_BODIES[0].body(cpx).krate == 'kira':
                by_callee.setdefault(cpx, []).append(x)
    for cpx, xs in by_callee.items():
        for x in xs:
            for y in xs:
                if x != y and y in b.reach_after(x) and not b.in_loop(x):
                    return 'a command that arrived is applied twice: %s is called again with the value on the same path' % cpx
    if not must_pass(b, [some_block], exits, uses):
        return ('a command that arrived can be dropped: on the Some side some path reaches the code after it without handing '
                'the value to anything (a handler that skips a command it judges redundant has still consumed it)')
    return None


def pairing(F, R, readers, writers):
    """Reader and writer of one command are the two halves of one command_writer_and_reader() call."""
    src_w = {}  # (adt, field) -> (body path, call bb)
    src_r = {}
    by_call = defaultdict(lambda: [None, None])
    store_at = {}
    n_calls = 0
    for b in F.bodies:
        if b.krate != 'kira':
            continue
        pair_calls = [bb for bb, t in calls_to(b, 'command::command_writer_and_reader', suffix=False)]
        if not pair_calls:
            continue
        n_calls += len(pair_calls)
        dest_of = {b.blocks[bb]['term']['dest']['l']: bb for bb in pair_calls}
        for bi, si, s in b.stmts():
            if s['k'] != 'assign' or s['rv']['k'] != 'agg' or s['rv'].get('ak') != 'adt':
                continue
            rv = s['rv']
            for fname, op in zip(rv['fields'], rv['ops']):
                half = half_of(b, op, dest_of)
                if half is None:
                    continue
                call_bb, idx = half
                by_call[(b.path, call_bb)][0 if idx == 0 else 1] = (rv['adt'], fname)
                store_at.setdefault((b.path, call_bb), {}).setdefault(0 if idx == 0 else 1, []).append(bi)
                (src_w if idx == 0 else src_r)[(rv['adt'], fname)] = (b.path, call_bb)
    # a half may also be stored in a collection (the per-route writers of a track live in a HashMap)
    for b in F.bodies:
        if b.krate != 'kira':
            continue
        pair_calls = [bb for bb, t in calls_to(b, 'command::command_writer_and_reader', suffix=False)]
        if not pair_calls:
            continue
        dest_of = {b.blocks[bb]['term']['dest']['l']: bb for bb in pair_calls}
        for bb, t in b.calls():
            cp = callee_path(t) or ''
            if (cp.endswith('::insert') and 'HashMap' in cp) or (cp.endswith('::or_insert') and 'hash_map::Entry' in cp):
                for a in t['args']:
                    half = half_of(b, a, dest_of)
                    if half is not None and half[1] == 0:
                        by_call[(b.path, half[0])][0] = ('<HashMap value>', b.path)
                        store_at.setdefault((b.path, half[0]), {}).setdefault(0, []).append(bb)
    npairs = 0
    wset = set((a, f) for a, f, _ in writers)
    rset = set((a, f) for a, f, _ in readers)
    for (bpath, cbb), (w, r) in sorted(by_call.items()):
        if w is None or r is None:
            R.bad('B.C07.pair', '%s' % ((w or r),), 'one half of a command_writer_and_reader() pair in %s is not stored in a struct field' % bpath)
            continue
        npairs += 1
        ok = (w in wset or w[0] == '<HashMap value>') and r in rset
        why = ''
        wm, rm = w[0].rsplit('::', 1), r[0].rsplit('::', 1)
        if wm[-1] == 'CommandWriters' and rm[-1] == 'CommandReaders':
            if wm[0] != rm[0] or w[1] != r[1]:
                ok = False
                why = 'writer %s.%s is paired with reader %s.%s' % (w[0], w[1], r[0], r[1])
        R.check(ok, 'B.C07.pair', '%s.%s' % w, why or 'pair halves are not CommandWriter/CommandReader fields',
                detail={'writer': '%s.%s' % w, 'reader': '%s.%s' % r, 'built_in': bpath})
        # a pair made in a loop (one per route): every turn that makes a pair stores BOTH halves - a writer kept without its
        # reader accepts commands that nobody will ever read
        pb = F.body(bpath)
        st = store_at.get((bpath, cbb), {})
        if pb is not None and pb.in_loop(cbb) and st.get(0) and st.get(1):
            from ..rules import must_pass
            L = min(pb.in_loop(cbb), key=lambda l: len(l['blocks']))
            nxt = [pb.blocks[cbb]['term'].get('t')] if pb.blocks[cbb]['term'].get('t') is not None else []
            both = all(must_pass(pb, nxt, [L['header']], [x for x in st[i]]) for i in (0, 1))
            R.check(both, 'B.C07.pair', '%s.%s|both-stored' % w, 'in %s a turn of the loop can make a writer / reader pair and keep only one half of it' % bpath,
                    detail={'built_in': bpath}, where=pb.where(cbb), nontrivial=False)
    for k in sorted(rset):
        R.check(k in src_r, 'B.C07.pair', 'reader-source:%s.%s' % k,
                'reader field %s.%s is not initialised from a command_writer_and_reader() call' % k, nontrivial=False)
    R.floor('B.C07.pair', npairs, 62)


def half_of(b, op, dest_of):
    """Is operand (through moves) the .0 / .1 of a command_writer_and_reader() result?"""
    cur = op
    for _ in range(8):
        if not is_place(cur):
            return None
        pl = cur['pl']
        if pl['p']:
            if pl['l'] in dest_of and len(pl['p']) == 1 and pl['p'][0][0] == 'field':
                return dest_of[pl['l']], pl['p'][0][1]
            return None
        d = b.single_def(pl['l'])
        if not d or d[0] != 'stmt' or d[3]['rv']['k'] != 'use':
            return None
        cur = d[3]['rv']['op']
    return None


def guard(F, R):
    # Parameter::read_command is the read site of every value-change command: what it reads is always applied
    pb = F.body('parameter::Parameter::<T>::read_command')
    if R.check(pb is not None, 'B.C07.guard', 'anchor:read_command', 'Parameter::read_command not found'):
        from ..rules import option_edges
        rs = [x for x, t in pb.calls() if (callee_path(t) or '') == 'command::CommandReader::<T>::read']
        why = 'Parameter::read_command does not read its command reader exactly once'
        if len(rs) == 1:
            oe = option_edges(pb, rs[0])
            why = 'the Option read is not matched on'
            if oe:
                some_side = pb.reachable([oe[0]]) - pb.reachable([oe[1]])
                sets = [x for x in some_side if (callee_path(pb.blocks[x]['term']) or '') == 'parameter::Parameter::<T>::set']
                why = payload_always_used(pb, pb.blocks[rs[0]]['term']['dest']['l'], oe[0], some_side)
                if not sets:
                    why = 'the command read is not handed to Parameter::set'
        R.check(not why, 'B.C07.guard', 'Parameter::read_command', why or '', detail='read() is Some => self.set(target, tween) on every path', where=pb.file)
    # a command that was written stays written: neither end of the channel does anything when it is dropped (a writer that
    # retracts its pending command on drop loses `play(..)?.set_volume(..)` and `sound.stop(t); drop(sound)`)
    dr = [im['self_ty'] for im in F.impls if im['trait'] == 'std::ops::Drop' and (im['self_ty'] or '').startswith(('command::CommandWriter', 'command::CommandReader'))]
    R.check(not dr, 'B.C07.guard', 'no-drop', 'Drop is implemented for %s: dropping a handle can take back a command that was already issued' % dr,
            detail='CommandWriter / CommandReader have no Drop impl')
    b = F.body('command::CommandReader::<T>::read')
    if not R.check(b is not None, 'B.C07.guard', 'anchor', 'CommandReader::read not found'):
        return
    prs = [p for p in explore(b) if p.end == 'return']
    ok = True
    why = ''
    seen = set()
    # combinator form: `self.raw.update().then(|| *self.raw.output_buffer()).flatten()` -- `then` runs the closure
    # (the only reader of the buffer) exactly when update() reported a new value, and yields None otherwise
    from ..paths import parse_term
    from ..rules import closure_args
    if len(prs) == 1 and not any('triple_buffer::Output::<T>::update' in d for _, d, _ in prs[0].decisions):
        name, args = parse_term(str(prs[0].ret))
        good = False
        if name.endswith('::flatten') and args and len(args) == 1:
            n2, a2 = parse_term(args[0])
            if n2 == 'core::bool::<impl bool>::then' and a2 and len(a2) == 2 and 'triple_buffer::Output::<T>::update(' in a2[0]:
                for bb, t in b.calls():
                    if (callee_path(t) or '') == 'core::bool::<impl bool>::then':
                        cl = closure_args(F, b, t)
                        good = len(cl) == 1 and any('output_buffer' in (callee_path(tt) or '') or 'peek_output_buffer' in (callee_path(tt) or '')
                                                    for _, tt in cl[0].calls())
        R.check(good, 'B.C07.guard', 'CommandReader::read',
                'CommandReader::read is %s: not `update().then(|| read the buffer).flatten()`' % str(prs[0].ret)[:160],
                detail={'form': 'update().then(|| *buffer).flatten()'}, where=b.file)
        return
    for p in prs:
        upd = None
        for bb, desc, lab in p.decisions:
            if 'triple_buffer::Output::<T>::update' in desc:
                upd = bool_label(lab)
        seen.add(upd)
        if upd is True:
            if 'output_buffer' not in str(p.ret) and 'Output' not in str(p.ret):
                # ret is a copy out of the buffer reference
                calls = [c for _, c in p.calls]
                if not any('output_buffer' in c or 'read' in c for c in calls):
                    ok = False
                    why = 'on update()==true the function returns %s' % p.ret
        elif upd is False:
            if 'None' not in str(p.ret):
                ok = False
                why = 'without a new value the function returns %s instead of None' % p.ret
        else:
            ok = False
            why = 'a path returns without consulting Output::update()'
    if seen != {True, False}:
        ok = False
        why = why or 'Output::update() is not branched on'
    R.check(ok, 'B.C07.guard', 'CommandReader::read', why, detail={'paths': len(prs)}, where=b.file)


OWNERS = [
    ('backend::resources::mixer::Mixer::on_start_processing', 'sub_tracks', 'track::sub::Track::on_start_processing'),
    ('backend::resources::mixer::Mixer::on_start_processing', 'send_tracks', 'track::send::SendTrack::on_start_processing'),
    ('track::sub::Track::on_start_processing', 'sounds', 'sound::Sound::on_start_processing'),
    ('track::sub::Track::on_start_processing', 'sub_tracks', 'track::sub::Track::on_start_processing'),
    ('track::main::MainTrack::on_start_processing', 'sounds', 'sound::Sound::on_start_processing'),
    ('backend::resources::clocks::Clocks::on_start_processing', '0', 'clock::Clock::on_start_processing'),
    ('backend::resources::modulators::Modulators::on_start_processing', '0', 'modulator::Modulator::on_start_processing'),
    ('backend::resources::listeners::Listeners::on_start_processing', '0', 'listener::Listener::on_start_processing'),
]


def first(F, R):
    """A resource inserted in this callback receives its pending commands in the same callback:
    remove_and_add on the storage precedes the loop that calls on_start_processing on its items."""
    from ..rules import self_field_of_call
    n = 0
    for fn, field, item_osp in OWNERS:
        b = F.body(fn)
        key = '%s.%s' % (fn.rsplit('::', 1)[0], field)
        if not R.check(b is not None, 'B.C07.first', 'anchor:' + key, '%s not found' % fn):
            continue
        ra = [bb for bb, t in calls_where(b, lambda p, t: p.endswith('ResourceStorage::<T>::remove_and_add'))
              if (self_field_of_call(b, b.blocks[bb]['term'], 0) or '').endswith('.' + field)]
        # the per-item call: directly inside a loop over the storage, or in the closure handed to an iterator consumer
        from ..rules import op_sites
        it2 = op_sites(F, b, lambda p, t: p == item_osp)
        direct = set(bb for bb, t in calls_to(b, item_osp, suffix=False))
        if not R.check(len(ra) == 1 and len(it2) >= 1, 'B.C07.first', 'site:' + key,
                       '%s: remove_and_add on %s (%d) or the on_start_processing loop (%d) not found' % (fn, field, len(ra), len(it2))):
            continue
        n += 1
        def per_item_site(bb):
            if bb in direct:
                return bool(b.in_loop(bb))
            cp = callee_path(b.blocks[bb]['term']) or ''
            if 'for_each' in cp:
                return True
            # a closure value invoked once per iteration of a loop (`for item in .. { f(item) }`)
            return cp.split('::')[-1] in ('call_mut', 'call', 'call_once') and bool(b.in_loop(bb))
        ok = all(per_item_site(bb) for bb in it2) and not b.in_loop(ra[0])
        ok = ok and any(order_ok(b, ra, [bb]) for bb in it2)
        R.check(ok, 'B.C07.first', key,
                '%s: the storage %s is not refilled before its items receive on_start_processing (a command issued before '
                'the first callback would be applied one callback late or lost)' % (fn, field),
                detail={'owner': fn, 'storage': field}, where=b.where(ra[0]))
    R.floor('B.C07.first', n, 8)


PAYLOAD_CTORS = ('tuple', 'command::ValueChangeCommand::ValueChangeCommand', 'std::convert::Into::into',
                 '<T as std::convert::Into<U>>::into',    # the blanket impl, for an argument of a concrete type

                 'sound::IntoOptionalRegion::into_optional_region', 'value::Value::<T>::to_')


def payload_verbatim(F, R, rule='B.C07.payload', fn_filter=None, floor=60):
    """What a handle method writes into its command channel is what it was given: the payload is built from the method's own
    parameters with conversions only (`into()`, `to_()`, `into_optional_region()`, a tuple, the `ValueChangeCommand`
    constructor) and constants - it is not adjusted on the game thread (clamped to a limit, combined with a value read back
    from the audio side, moved from one field of the command to another), where the adjustment cannot see what the audio
    thread will have by the time it applies the command."""
    from ..paths import parse_term
    n = 0
    # a fieldless variant spelled out (`StartTime::Immediate`) is a constant
    units = set()
    for ap, a in F.adts.items():
        if a.get('kind') == 'Enum':
            units |= {'%s::%s' % (ap, v['name']) for v in a['variants'] if not v['fields']}
    from ..rules import feasible_paths

    def ok_term(d, params):
        nm, args = parse_term(d)
        if args is None:
            return d in params or d in ('True', 'False', 'tuple()', '()') or d.startswith(('const ', 'promoted[')) or d in units
        if not args and nm.endswith(('::default', '::new')):
            return True     # a constructor of nothing (`Tween::default()`): a constant
        return nm in PAYLOAD_CTORS and all(ok_term(a, params) for a in args)
    for b in F.bodies:
        if b.krate != 'kira' or 'andle' not in b.path or (fn_filter is not None and not fn_filter(b.path)):
            continue
        params = [nm for l, nm in b.names.items() if 1 <= l <= b.arg_count]
        ps = feasible_paths(b)
        live = None if ps is None else set().union(*[set(x) for x in ps]) if ps else set()
        for bb, t in b.calls():
            if (callee_path(t) or '') != 'command::CommandWriter::<T>::write':
                continue
            if live is not None and bb not in live:
                continue    # the arm of a spliced-in helper's `match` for a command this method does not build
            n += 1
            d = describe(b, t['args'][1], depth=8, at=bb)
            R.check(ok_term(d, params), rule, 'verbatim:' + b.path.split('::{closure')[0], '%s writes %s: not its own arguments handed on as they are' % (b.path, d[:140]),
                    detail={'payload': d[:160]}, where=b.where(bb), nontrivial=False)
    R.floor(rule + '.verbatim', n, floor)


def write_unconditional(F, R, rule='B.C07.write', fn_filter=None, floor=60):
    """A command issued on a handle is written, whatever the handle believes the current state to be: in every function
    that writes a command, each path to a return passes a CommandWriter::write (directly or in a closure handed to a call),
    except paths that report an error to the caller (`Err(..)`, e.g. a send route that does not exist).  A setter that
    skips the write when a cached / shared value already equals the argument drops the LAST of two commands issued between
    two callbacks, because that value is only refreshed by the audio thread."""
    from ..rules import op_sites
    n = 0
    direct = {}
    for b in F.bodies:
        if b.krate != 'kira' or '{closure' in b.path:
            continue
        ws = set(op_sites(F, b, lambda p, t: p == 'command::CommandWriter::<T>::write'))
        if ws:
            direct[b.path] = ws
    # wrappers: a function whose command goes out through another command-writing function (`resume` -> `resume_at`)
    # owes the same: on every non-error path it reaches that call
    sites = dict(direct)
    for _ in range(3):
        for b in F.bodies:
            if b.krate != 'kira' or '{closure' in b.path or b.path in sites:
                continue
            cs = set(op_sites(F, b, lambda p, t: p in sites))
            if cs:
                sites[b.path] = cs
    for b in F.bodies:
        if b.krate != 'kira' or '{closure' in b.path or b.path not in sites:
            continue
        ws = sites[b.path]
        if fn_filter is not None and not fn_filter(b.path):
            continue
        n += 1
        bad = None
        for p in explore(b):
            if p.end != 'return' or (set(p.blocks) & ws):
                continue
            ret = str(p.ret)
            if 'Result::Err' in ret or '::Err(' in ret or 'from_residual' in ret:
                continue
            bad = [(d[:80], l) for _, d, l in p.decisions][-3:]
        R.check(bad is None, rule, b.path,
                '%s can return without writing its command (after %s): a command issued on the handle is dropped on that path'
                % (b.path, bad), detail={'writes': len(ws)}, where=b.file)
    R.floor(rule, n, floor)


def _builders(F, R):
    from .c02 import builders
    builders(F, R)


def once(F, R):
    b = F.body('backend::renderer::Renderer::on_start_processing')
    if R.check(b is not None, 'B.C07.once', 'anchor', 'Renderer::on_start_processing not found'):
        groups = ['backend::resources::mixer::Mixer::on_start_processing',
                  'backend::resources::clocks::Clocks::on_start_processing',
                  'backend::resources::listeners::Listeners::on_start_processing',
                  'backend::resources::modulators::Modulators::on_start_processing']
        for g in groups:
            cs = calls_to(b, g, suffix=False)
            R.check(len(cs) == 1 and not b.in_loop(cs[0][0]) and all(b.dominates(cs[0][0], r) for r in b.return_blocks()),
                    'B.C07.once', g.split('::')[-2],
                    'Renderer::on_start_processing calls %s %d times / conditionally / in a loop' % (g, len(cs)),
                    detail='called once on every path')
    pr = F.body('backend::cpal::desktop::stream_manager::process_renderer')
    if pr is not None:
        a = [bb for bb, t in pr.calls() if (callee_path(t) or '').endswith('::on_start_processing')]
        p = [bb for bb, t in pr.calls() if (callee_path(t) or '').endswith('RendererWithCpuUsage::process')]
        R.check(len(a) == 1 and len(p) == 1 and order_ok(pr, a, p) and not pr.in_loop(a[0]), 'B.C07.once', 'cpal-callback',
                'the cpal data callback does not call on_start_processing exactly once before process',
                detail='on_start_processing ≺ process, once each')


def pickup_order(F, R, rule='B.C07.pickup-order', which=('renderer', 'mixer')):
    """The audio thread drains its new-resource queues in the reverse of the order in which the game can create things
    that refer to each other: a sound, sub-track or effect parameter may name a clock, modulator, listener or send track
    that was created just before it, so the queue of the dependents is drained FIRST - whatever is then found in it had
    its dependencies pushed earlier, and their queues are drained afterwards in the same callback.  (Drained the other
    way round, a dependent can be picked up one callback before the thing it refers to: a sound linked to a modulator
    plays a buffer at its default value, a track plays a buffer without its send.)"""
    from ..rules import order_ok
    if 'renderer' in which:
        b = F.body('backend::renderer::Renderer::on_start_processing')
        if R.check(b is not None, rule, 'anchor:renderer', 'Renderer::on_start_processing not found'):
            mx = [x for x, t in b.calls() if (callee_path(t) or '') == 'backend::resources::mixer::Mixer::on_start_processing']
            for dep in ('clocks::Clocks', 'listeners::Listeners', 'modulators::Modulators'):
                dx = [x for x, t in b.calls() if (callee_path(t) or '') == 'backend::resources::%s::on_start_processing' % dep]
                R.check(len(mx) == 1 and len(dx) == 1 and order_ok(b, mx, dx), rule, 'renderer:mixer-before-' + dep.split('::')[0],
                        'Renderer::on_start_processing does not let the mixer pick up new sounds and tracks before the %s are picked up: '
                        'a sound or track could be seen one callback before the %s it is linked to' % (dep.split('::')[0], dep.split('::')[0][:-1]),
                        detail='mixer.on_start_processing ≺ %s.on_start_processing' % dep.split('::')[0], where=b.file)
            # ... and the modulators last: the speed of a clock and the position of a listener may be linked to a modulator too
            md = [x for x, t in b.calls() if (callee_path(t) or '') == 'backend::resources::modulators::Modulators::on_start_processing']
            for dep in ('clocks::Clocks', 'listeners::Listeners'):
                dx = [x for x, t in b.calls() if (callee_path(t) or '') == 'backend::resources::%s::on_start_processing' % dep]
                R.check(len(md) == 1 and len(dx) == 1 and order_ok(b, dx, md), rule, 'renderer:%s-before-modulators' % dep.split('::')[0],
                        'Renderer::on_start_processing picks up new modulators before new %s: a %s linked to a modulator created just before it '
                        'could be seen one callback before that modulator' % (dep.split('::')[0], dep.split('::')[0][:-1]),
                        detail='%s.on_start_processing ≺ modulators.on_start_processing' % dep.split('::')[0], where=b.file)
    if 'mixer' in which:
        b = F.body('backend::resources::mixer::Mixer::on_start_processing')
        if R.check(b is not None, rule, 'anchor:mixer', 'Mixer::on_start_processing not found'):
            from ..rules import self_field_of_call
            ra = {}
            for x, t in b.calls():
                if (callee_path(t) or '').endswith('ResourceStorage::<T>::remove_and_add'):
                    f = (self_field_of_call(b, t, 0) or '').split('.')[-1]
                    ra.setdefault(f, []).append(x)
            ok = len(ra.get('sub_tracks', [])) == 1 and len(ra.get('send_tracks', [])) == 1 and order_ok(b, ra['sub_tracks'], ra['send_tracks'])
            R.check(ok, rule, 'mixer:sub-tracks-before-send-tracks',
                    'Mixer::on_start_processing does not pick up new sub-tracks before new send tracks: a track could be seen one '
                    'callback before the send track it routes to (that callback is rendered without the send)',
                    detail='sub_tracks.remove_and_add ≺ send_tracks.remove_and_add', where=b.file)
